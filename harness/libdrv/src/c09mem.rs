// C09 ("memory use ... while rejecting [is] bounded by constants that no attacker-chosen header field can raise"):
// peak heap of ONE decrypt call on caller-supplied bytes.
//
//   c09mem key_dec    <r> <rpk> <data>
//   c09mem pass_dec   <pw> <data>
//   c09mem dec_chunks <key> <aad> <chunk_size> <data>
//
// The input is read from a slice (no allocation), the output goes to a counting sink that keeps nothing; the
// arguments are decoded BEFORE the measurement starts, so `peak` is the heap the library itself requested:
//
//   outcome=<ok|err:..> peak=<bytes> written=<n> consumed=<n>
//     peak      highest live heap (global allocator of zero.rs, requested sizes) during the call minus the live
//               heap at its start
//     written   bytes the library wrote to the sink;  consumed  bytes it took from the input
use std::io::{self, Write};

use kestrel_crypto as kc;
use kestrel_crypto::{AsymFileFormat, PassFileFormat, PrivateKey, PublicKey};

use crate::zero::{mem_peak, mem_reset_peak};

struct CountSink {
    n: u64,
}
impl Write for CountSink {
    fn write(&mut self, buf: &[u8]) -> io::Result<usize> {
        self.n += buf.len() as u64;
        Ok(buf.len())
    }
    fn flush(&mut self) -> io::Result<()> {
        Ok(())
    }
}

pub fn run(a: &[&str]) -> String {
    // a[0] = "c09mem"
    let which = a[1];
    let mut sink = CountSink { n: 0 };
    let (outcome, peak, left, total) = match which {
        "key_dec" => {
            let sk = PrivateKey::try_from(crate::unhex(a[2]).as_slice()).unwrap();
            let pk = PublicKey::try_from(crate::unhex(a[3]).as_slice()).unwrap();
            let data = crate::unhex(a[4]);
            let mut rd: &[u8] = data.as_slice();
            let base = mem_reset_peak();
            let res = kc::decrypt::key_decrypt(&mut rd, &mut sink, &sk, &pk, AsymFileFormat::V1);
            let peak = mem_peak().saturating_sub(base);
            let o = match &res { Ok(_) => "ok".to_string(), Err(e) => format!("err:{}", crate::dec_err(e)) };
            (o, peak, rd.len(), data.len())
        }
        "pass_dec" => {
            let pw = crate::unhex(a[2]);
            let data = crate::unhex(a[3]);
            let mut rd: &[u8] = data.as_slice();
            let base = mem_reset_peak();
            let res = kc::decrypt::pass_decrypt(&mut rd, &mut sink, &pw, PassFileFormat::V1);
            let peak = mem_peak().saturating_sub(base);
            let o = match &res { Ok(()) => "ok".to_string(), Err(e) => format!("err:{}", crate::dec_err(e)) };
            (o, peak, rd.len(), data.len())
        }
        "dec_chunks" => {
            let key = crate::unhex(a[2]);
            let aad = crate::unhex(a[3]);
            let cs: u32 = a[4].parse().unwrap();
            let data = crate::unhex(a[5]);
            let mut rd: &[u8] = data.as_slice();
            let base = mem_reset_peak();
            let res = kc::decrypt::verif_decrypt_chunks(&mut rd, &mut sink, &key, &aad, cs);
            let peak = mem_peak().saturating_sub(base);
            let o = match &res { Ok(()) => "ok".to_string(), Err(e) => format!("err:{}", crate::dec_err(e)) };
            (o, peak, rd.len(), data.len())
        }
        _ => return "outcome=badop".into(),
    };
    format!("outcome={} peak={} written={} consumed={}", outcome, peak, sink.n, total - left)
}
