// libdrv — runs kestrel-crypto (built from /repo's working tree, hooks on) on line-oriented cases.
// One case per stdin line:  <id> <op> <arg> ...   (byte strings hex-encoded, "-" = empty)
// One result per stdout line: <id> <key=value> ...
use std::cell::{Cell, RefCell};
use std::collections::VecDeque;
use std::io::{self, BufRead, ErrorKind, Read, Write};
use std::panic::{catch_unwind, AssertUnwindSafe};
use std::rc::Rc;

use kestrel_crypto as kc;
use kestrel_crypto::errors::{DecryptError, EncryptError};
use kestrel_crypto::{AsymFileFormat, PassFileFormat, PayloadKey, PrivateKey, PublicKey};

mod zero;
mod mem;
mod c09mem;
mod c09key;
mod c01rt;

fn unhex(s: &str) -> Vec<u8> {
    if s == "-" {
        return Vec::new();
    }
    let b = s.as_bytes();
    assert!(b.len() % 2 == 0, "odd hex");
    let v = |c: u8| match c {
        b'0'..=b'9' => c - b'0',
        b'a'..=b'f' => c - b'a' + 10,
        b'A'..=b'F' => c - b'A' + 10,
        _ => panic!("bad hex"),
    };
    (0..b.len() / 2).map(|i| v(b[2 * i]) * 16 + v(b[2 * i + 1])).collect()
}
fn hex(b: &[u8]) -> String {
    if b.is_empty() {
        return "-".to_string();
    }
    let mut s = String::with_capacity(b.len() * 2);
    for x in b {
        s.push_str(&format!("{:02x}", x));
    }
    s
}

fn words(b: &[u8]) -> Vec<u32> {
    assert!(b.len() % 4 == 0, "word string must be a multiple of 4 bytes");
    b.chunks(4).map(|c| u32::from_le_bytes(c.try_into().unwrap())).collect()
}
fn unwords(w: &[u32]) -> Vec<u8> {
    w.iter().flat_map(|x| x.to_le_bytes()).collect()
}

#[derive(Clone, Copy)]
enum Act {
    Cap(usize),
    Fail(ErrorKind),
}
fn kind_name(k: ErrorKind) -> &'static str {
    match k {
        ErrorKind::Interrupted => "Interrupted",
        ErrorKind::UnexpectedEof => "UnexpectedEof",
        ErrorKind::WriteZero => "WriteZero",
        _ => "Other",
    }
}
fn parse_script(s: &str) -> VecDeque<Act> {
    let mut v = VecDeque::new();
    if s == "-" {
        return v;
    }
    for t in s.split(',') {
        let a = match t.as_bytes()[0] {
            b'c' => Act::Cap(t[1..].parse().unwrap()),
            b'z' => Act::Cap(0),
            b'k' => Act::Cap(usize::MAX), // flush ok
            b'i' => Act::Fail(ErrorKind::Interrupted),
            b'o' => Act::Fail(ErrorKind::Other),
            b'b' => Act::Fail(ErrorKind::WouldBlock),
            b'u' => Act::Fail(ErrorKind::UnexpectedEof),
            b'y' => Act::Fail(ErrorKind::WriteZero),
            _ => panic!("bad script token"),
        };
        v.push_back(a);
    }
    v
}

type Trace = Rc<RefCell<Vec<String>>>;

// What the running case has read / written / traced so far, shared with `main` so that it can still be
// reported when the library panics in the middle of a run (`outcome=panic out=.. consumed=.. trace=..`).
// Set by mk_io, cleared before every case.
struct LiveObs {
    tr: Trace,
    out: Rc<RefCell<Vec<u8>>>,
    pos: Rc<Cell<usize>>,
}
thread_local! {
    static LIVE: RefCell<Option<LiveObs>> = RefCell::new(None);
}
fn live_report() -> Option<String> {
    LIVE.with(|l| {
        let l = l.try_borrow().ok()?;
        let o = l.as_ref()?;
        let tr = o.tr.try_borrow().ok()?;
        let out = o.out.try_borrow().ok()?;
        Some(format!(
            "out={} consumed={} trace={}",
            hex(&out),
            o.pos.get(),
            if tr.is_empty() { "-".to_string() } else { tr.join(",") }
        ))
    })
}

struct SReader {
    data: Vec<u8>,
    pos: usize,
    script: VecDeque<Act>,
    tr: Trace,
    pos_live: Rc<Cell<usize>>,
}
impl Read for SReader {
    fn read(&mut self, buf: &mut [u8]) -> io::Result<usize> {
        let req = buf.len();
        let rem = self.data.len() - self.pos;
        let m = match self.script.pop_front() {
            None => req.min(rem),
            Some(Act::Cap(k)) => k.min(req).min(rem),
            Some(Act::Fail(kind)) => {
                self.tr.borrow_mut().push(format!("R{}:{}", req, kind_name(kind)));
                return Err(io::Error::new(kind, "scripted read failure"));
            }
        };
        buf[..m].copy_from_slice(&self.data[self.pos..self.pos + m]);
        self.pos += m;
        self.pos_live.set(self.pos);
        self.tr.borrow_mut().push(format!("r{}:{}", req, m));
        Ok(m)
    }
}
struct SWriter {
    out: Vec<u8>,
    wscript: VecDeque<Act>,
    fscript: VecDeque<Act>,
    tr: Trace,
    out_live: Rc<RefCell<Vec<u8>>>,
}
impl Write for SWriter {
    fn write(&mut self, buf: &[u8]) -> io::Result<usize> {
        let m = match self.wscript.pop_front() {
            None => buf.len(),
            Some(Act::Cap(k)) => k.min(buf.len()),
            Some(Act::Fail(kind)) => {
                self.tr.borrow_mut().push(format!("W{}:{}", buf.len(), kind_name(kind)));
                return Err(io::Error::new(kind, "scripted write failure"));
            }
        };
        self.out.extend_from_slice(&buf[..m]);
        self.out_live.borrow_mut().extend_from_slice(&buf[..m]);
        self.tr.borrow_mut().push(format!("w{}:{}", buf.len(), m));
        Ok(m)
    }
    fn flush(&mut self) -> io::Result<()> {
        match self.fscript.pop_front() {
            None | Some(Act::Cap(_)) => {
                self.tr.borrow_mut().push("f:ok".to_string());
                Ok(())
            }
            Some(Act::Fail(kind)) => {
                self.tr.borrow_mut().push(format!("f:{}", kind_name(kind)));
                Err(io::Error::new(kind, "scripted flush failure"))
            }
        }
    }
}

fn mk_io(data: &str, rs: &str, ws: &str, fs: &str) -> (SReader, SWriter, Trace) {
    let tr: Trace = Rc::new(RefCell::new(Vec::new()));
    let out_live = Rc::new(RefCell::new(Vec::new()));
    let pos_live = Rc::new(Cell::new(0usize));
    LIVE.with(|l| {
        *l.borrow_mut() = Some(LiveObs { tr: tr.clone(), out: out_live.clone(), pos: pos_live.clone() })
    });
    (
        SReader { data: unhex(data), pos: 0, script: parse_script(rs), tr: tr.clone(), pos_live },
        SWriter { out: Vec::new(), wscript: parse_script(ws), fscript: parse_script(fs), tr: tr.clone(), out_live },
        tr,
    )
}

fn enc_err(e: &EncryptError) -> String {
    match e {
        EncryptError::UnexpectedData => "UnexpectedData".into(),
        EncryptError::IORead(e) => format!("IORead:{}", kind_name(e.kind())),
        EncryptError::IOWrite(e) => format!("IOWrite:{}", kind_name(e.kind())),
        EncryptError::Other(_) => "Other".into(),
    }
}
fn noise_class(msg: &str) -> &'static str {
    if msg == "Decrypt failed" {
        "Decrypt"
    } else if msg == "Diffie-Hellman operation failed" {
        "Dh"
    } else {
        "Other"
    }
}
fn dec_err(e: &DecryptError) -> String {
    match e {
        DecryptError::ChunkLen => "ChunkLen".into(),
        DecryptError::ChaPolyDecrypt => "ChaPolyDecrypt".into(),
        DecryptError::UnexpectedData => "UnexpectedData".into(),
        DecryptError::IORead(e) => format!("IORead:{}", kind_name(e.kind())),
        DecryptError::IOWrite(e) => format!("IOWrite:{}", kind_name(e.kind())),
        DecryptError::Other(m) => {
            if m.starts_with("Invalid file format") || m.starts_with("File format not supported") {
                "OtherFormat".into()
            } else if m.starts_with("This is a ") {
                "OtherWrongMode".into()
            } else {
                format!("OtherNoise:{}", noise_class(m))
            }
        }
    }
}

fn fin(outcome: String, w: &SWriter, r: &SReader, tr: &Trace, extra: &str) -> String {
    format!(
        "outcome={} out={} consumed={} trace={}{}",
        outcome,
        hex(&w.out),
        r.pos,
        if tr.borrow().is_empty() { "-".to_string() } else { tr.borrow().join(",") },
        extra
    )
}

fn opt_sk(s: &str) -> Option<PrivateKey> {
    if s == "none" { None } else { Some(PrivateKey::try_from(unhex(s).as_slice()).unwrap()) }
}
fn opt_pk(s: &str) -> Option<PublicKey> {
    if s == "none" { None } else { Some(PublicKey::try_from(unhex(s).as_slice()).unwrap()) }
}

// An installed stream that runs dry makes secure_random() panic (since /repo 24bed26 the hook releases
// the stream's lock BEFORE it panics, so the mutex is not poisoned and later cases still work).  A case
// that would overdraw is nevertheless refused up front, so that it is told apart from a library panic
// and leaves the stream untouched.
pub(crate) fn rand_short(need: usize) -> Option<String> {
    match kc::verif_hooks::random_stream_remaining() {
        Some(have) if have < need => Some(format!("outcome=rand_short need={} have={}", need, have)),
        _ => None,
    }
}

// noise.rs::init_x keeps an injected ephemeral pair only when BOTH halves are given; in every other case
// (none, or only one half) write_message's token `e` draws a fresh private key: 32 bytes.
fn eph_draw(e: &Option<PrivateKey>, epk: &Option<PublicKey>) -> usize {
    if e.is_some() && epk.is_some() { 0 } else { 32 }
}

fn panic_class(msg: &str) -> &'static str {
    if msg.starts_with("assertion") {
        "assert"
    } else if msg.starts_with("attempt to ") || msg.starts_with("capacity overflow") {
        "arith"
    } else if msg.starts_with("called `Result::unwrap()`") || msg.starts_with("called `Option::unwrap()`") {
        "unwrap"
    } else if msg.starts_with("index out of bounds")
        || msg.starts_with("range ")
        || msg.starts_with("slice index")
        || msg.starts_with("source slice length")
        || msg.starts_with("mid > len")
    {
        "index"
    } else {
        "other"
    }
}

fn panic_report(e: Box<dyn std::any::Any + Send>) -> String {
    let msg: String = if let Some(s) = e.downcast_ref::<&'static str>() {
        s.to_string()
    } else if let Some(s) = e.downcast_ref::<String>() {
        s.clone()
    } else {
        String::new()
    };
    let m = msg.as_bytes();
    format!("outcome=panic class={} msg={}", panic_class(&msg), hex(&m[..m.len().min(96)]))
}

fn run(a: &[&str]) -> String {
    match a[0] {
        "enc_chunks" => {
            let (mut r, mut w, tr) = mk_io(a[4], a[5], a[6], a[7]);
            let key = unhex(a[1]);
            let aad = unhex(a[2]);
            let cs: u32 = a[3].parse().unwrap();
            let res = kc::encrypt::verif_encrypt_chunks(&mut r, &mut w, &key, &aad, cs);
            let o = match &res { Ok(()) => "ok".into(), Err(e) => format!("err:{}", enc_err(e)) };
            fin(o, &w, &r, &tr, "")
        }
        "dec_chunks" => {
            let (mut r, mut w, tr) = mk_io(a[4], a[5], a[6], a[7]);
            let key = unhex(a[1]);
            let aad = unhex(a[2]);
            let cs: u32 = a[3].parse().unwrap();
            let res = kc::decrypt::verif_decrypt_chunks(&mut r, &mut w, &key, &aad, cs);
            let o = match &res { Ok(()) => "ok".into(), Err(e) => format!("err:{}", dec_err(e)) };
            fin(o, &w, &r, &tr, "")
        }
        "key_enc" => {
            // s spk r e epk pk data rs ws fs
            let (mut r, mut w, tr) = mk_io(a[7], a[8], a[9], a[10]);
            let s = opt_sk(a[1]).unwrap();
            let spk = opt_pk(a[2]).unwrap();
            let rpk = opt_pk(a[3]).unwrap();
            let e = opt_sk(a[4]);
            let epk = opt_pk(a[5]);
            let pk = if a[6] == "none" { None } else { Some(PayloadKey::new(&unhex(a[6]))) };
            let need = if pk.is_none() { 32 } else { 0 } + eph_draw(&e, &epk);
            if let Some(msg) = rand_short(need) {
                return msg;
            }
            let res = kc::encrypt::key_encrypt(
                &mut r, &mut w, &s, &spk, &rpk, e.as_ref(), epk.as_ref(), pk.as_ref(), AsymFileFormat::V1,
            );
            let o = match &res { Ok(()) => "ok".into(), Err(e) => format!("err:{}", enc_err(e)) };
            fin(o, &w, &r, &tr, "")
        }
        "key_dec" => {
            // r rpk data rs ws fs
            let (mut r, mut w, tr) = mk_io(a[3], a[4], a[5], a[6]);
            let sk = opt_sk(a[1]).unwrap();
            let pk = opt_pk(a[2]).unwrap();
            let res = kc::decrypt::key_decrypt(&mut r, &mut w, &sk, &pk, AsymFileFormat::V1);
            let (o, extra) = match &res {
                Ok(p) => ("ok".to_string(), format!(" sender={}", hex(p.as_bytes()))),
                Err(e) => (format!("err:{}", dec_err(e)), String::new()),
            };
            fin(o, &w, &r, &tr, &extra)
        }
        "pass_enc" => {
            // pw salt data rs ws fs
            let (mut r, mut w, tr) = mk_io(a[3], a[4], a[5], a[6]);
            let salt: [u8; 32] = unhex(a[2]).try_into().unwrap();
            let res = kc::encrypt::pass_encrypt(&mut r, &mut w, &unhex(a[1]), salt, PassFileFormat::V1);
            let o = match &res { Ok(()) => "ok".into(), Err(e) => format!("err:{}", enc_err(e)) };
            fin(o, &w, &r, &tr, "")
        }
        "pass_dec" => {
            // pw data rs ws fs
            let (mut r, mut w, tr) = mk_io(a[2], a[3], a[4], a[5]);
            let res = kc::decrypt::pass_decrypt(&mut r, &mut w, &unhex(a[1]), PassFileFormat::V1);
            let o = match &res { Ok(()) => "ok".into(), Err(e) => format!("err:{}", dec_err(e)) };
            fin(o, &w, &r, &tr, "")
        }
        "seal" => format!("outcome=ok out={}", hex(&kc::chapoly_encrypt_ietf(&unhex(a[1]), &unhex(a[2]), &unhex(a[4]), &unhex(a[3])))),
        "open" => match kc::chapoly_decrypt_ietf(&unhex(a[1]), &unhex(a[2]), &unhex(a[4]), &unhex(a[3])) {
            Ok(p) => format!("outcome=ok out={}", hex(&p)),
            Err(_) => "outcome=err:ChaPolyDecrypt out=-".into(),
        },
        "nseal" => format!(
            "outcome=ok out={}",
            hex(&kc::verif_hooks::chapoly_encrypt_noise(&unhex(a[1]), a[2].parse().unwrap(), &unhex(a[3]), &unhex(a[4])))
        ),
        "nopen" => match kc::verif_hooks::chapoly_decrypt_noise(&unhex(a[1]), a[2].parse().unwrap(), &unhex(a[3]), &unhex(a[4])) {
            Ok(p) => format!("outcome=ok out={}", hex(&p)),
            Err(_) => "outcome=err:ChaPolyDecrypt out=-".into(),
        },
        "sha256" => format!("outcome=ok out={}", hex(&kc::sha256(&unhex(a[1])))),
        "hmac" => format!("outcome=ok out={}", hex(&kc::hmac_sha256(&unhex(a[1]), &unhex(a[2])))),
        "hkdf" => format!(
            "outcome=ok out={}",
            hex(&kc::hkdf_sha256(&unhex(a[1]), &unhex(a[2]), &unhex(a[3]), a[4].parse().unwrap()))
        ),
        "hkdfn" => {
            let (x, y) = kc::verif_hooks::hkdf_noise(&unhex(a[1]), &unhex(a[2]));
            format!("outcome=ok out={}{}", hex(&x), hex(&y))
        }
        "x25519" => match kc::x25519(&unhex(a[1]), &unhex(a[2])) {
            Ok(p) => format!("outcome=ok out={}", hex(&p)),
            Err(_) => "outcome=err:Dh out=-".into(),
        },
        "xpub" => match kc::x25519_derive_public(&unhex(a[1])) {
            Ok(p) => format!("outcome=ok out={}", hex(&p)),
            Err(_) => "outcome=err:Dh out=-".into(),
        },
        "scrypt" => format!(
            "outcome=ok out={}",
            hex(&kc::scrypt(
                &unhex(a[1]), &unhex(a[2]),
                a[3].parse().unwrap(), a[4].parse().unwrap(), a[5].parse().unwrap(), a[6].parse().unwrap()
            ))
        ),
        "noise_enc" => {
            // s spk r e epk prologue payload
            let s = opt_sk(a[1]).unwrap();
            let spk = opt_pk(a[2]).unwrap();
            let rpk = opt_pk(a[3]).unwrap();
            let e = opt_sk(a[4]);
            let epk = opt_pk(a[5]);
            let pk = PayloadKey::new(&unhex(a[7]));
            if let Some(msg) = rand_short(eph_draw(&e, &epk)) {
                return msg;
            }
            match kc::noise_encrypt(&s, &spk, &rpk, e.as_ref(), epk.as_ref(), &unhex(a[6]), &pk) {
                Ok(m) => format!("outcome=ok out={} hh={}", hex(&m.ciphertext), hex(&m.handshake_hash)),
                Err(e) => format!("outcome=err:{} out=-", noise_class(&e.to_string())),
            }
        }
        "noise_dec" => {
            // r rpk prologue msg
            let sk = opt_sk(a[1]).unwrap();
            let pk = opt_pk(a[2]).unwrap();
            match kc::noise_decrypt(&sk, &pk, &unhex(a[3]), &unhex(a[4])) {
                Ok(m) => format!(
                    "outcome=ok out={} hh={} sender={}",
                    hex(m.payload_key.as_bytes()), hex(&m.handshake_hash), hex(m.public_key.as_bytes())
                ),
                Err(e) => format!("outcome=err:{} out=-", noise_class(&e.to_string())),
            }
        }
        "setrand" => {
            // setrand <hex|-|none|empty>: "-"/"none" removes the stream, "empty" installs a zero-length one
            let st = match a[1] {
                "-" | "none" => None,
                "empty" => Some(Vec::new()),
                h => Some(unhex(h)),
            };
            kc::verif_hooks::set_random_stream(st);
            "outcome=ok".into()
        }
        "randleft" => match kc::verif_hooks::random_stream_remaining() {
            Some(n) => format!("outcome=ok n={}", n),
            None => "outcome=ok n=none".into(),
        },
        "salsa_xor" => {
            // tmp inn (little-endian words)
            let mut tmp = words(&unhex(a[1]));
            let inn = words(&unhex(a[2]));
            let mut out = vec![0u32; 16];
            kc::verif_hooks::scrypt_salsa_xor(&mut tmp, &inn, &mut out);
            format!("outcome=ok out={}{}", hex(&unwords(&tmp)), hex(&unwords(&out)))
        }
        "block_mix" => {
            // r inn
            let r: usize = a[1].parse().unwrap();
            let inn = words(&unhex(a[2]));
            let mut tmp = vec![0u32; 16];
            let mut out = vec![0u32; inn.len()];
            kc::verif_hooks::scrypt_block_mix(&mut tmp, &inn, &mut out, r);
            format!("outcome=ok out={}", hex(&unwords(&out)))
        }
        "smix" => {
            // r N b
            let r: usize = a[1].parse().unwrap();
            let n: usize = a[2].parse().unwrap();
            let mut b = unhex(a[3]);
            let mut x = vec![0u32; 32 * r];
            let mut y = vec![0u32; 32 * r];
            let mut v = vec![0u32; 32 * n * r];
            kc::verif_hooks::scrypt_smix(&mut b, r, n, &mut v, &mut x, &mut y);
            format!("outcome=ok out={}", hex(&b))
        }
        // pc <op> <args..>: the op under its own catch_unwind, the panic classified by its message the way the model
        // tags panics (Outcome.v: PAssert / PArith / PUnwrap / PSliceIndex): outcome=panic class=.. msg=<hex, <= 96 bytes>
        "pc" => match catch_unwind(AssertUnwindSafe(|| run(&a[1..]))) {
            Ok(s) => s,
            Err(e) => panic_report(e),
        },
        // thr <op> <args..>: the op on a freshly spawned thread (joined before the reply); a panic that ends the
        // thread is reported like pc's, from the payload join() hands over
        "thr" => std::thread::scope(|sc| match sc.spawn(|| run(&a[1..])).join() {
            Ok(s) => s,
            Err(e) => panic_report(e),
        }),
        op if op.starts_with("z_") => zero::run(a),
        op if op.starts_with("mem_") => mem::run(a),
        "c09mem" => c09mem::run(a),
        "c09key" => c09key::run(a),
        "c01rt" => c01rt::run(a),
        _ => "outcome=badop".into(),
    }
}

fn main() {
    std::panic::set_hook(Box::new(|_| {}));
    let stdin = io::stdin();
    let stdout = io::stdout();
    let mut out = io::BufWriter::new(stdout.lock());
    for line in stdin.lock().lines() {
        let line = line.unwrap();
        let toks: Vec<&str> = line.split_whitespace().collect();
        if toks.len() < 2 {
            continue;
        }
        let id = toks[0];
        LIVE.with(|l| *l.borrow_mut() = None);
        let res = catch_unwind(AssertUnwindSafe(|| run(&toks[1..])));
        let body = match res {
            Ok(s) => s,
            // a streaming op that panicked: what it had read, written and traced up to the panic is reported too
            Err(_) => match live_report() {
                Some(obs) => format!("outcome=panic {}", obs),
                None => "outcome=panic".to_string(),
            },
        };
        writeln!(out, "{} {}", id, body).unwrap();
        out.flush().unwrap(); // one reply per request line, usable interactively over pipes
    }
}
