#!/bin/bash
# Builds the framework from files on disk only (offline): translator output, the whole Coq
# development (full .vo build), and the Rust harness against /repo's working tree with hooks on.
set -u
cd "$(dirname "$0")"
export CARGO_NET_OFFLINE=true
python3 tools/extract.py || { echo "setup: translator failed"; exit 1; }
tools/mkproject.sh || exit 1
( cd coq && timeout 3000 make -j16 ) || { echo "setup: coq build failed"; exit 1; }
CARGO_TARGET_DIR=/verif/.cache/target timeout 1800 harness/build.sh || { echo "setup: harness build failed"; exit 1; }
echo "setup ok"
